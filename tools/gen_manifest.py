#!/usr/bin/env python3
"""Generates /verif/MANIFEST.json from the table below (kept in one place so the
manifest stays valid while checks are added)."""
import json, os, sys
HERE = os.path.dirname(os.path.dirname(os.path.abspath(__file__)))

TRUST = ("go/packages + go/types + go/ssa + CHA/VTA call graphs of golang.org/x/tools v0.29.0; the Go memory model; "
         "sync.Mutex/sync.Cond and the standard library behave as documented; krotik/common (PriorityQueue, RingBuffer) trusted; "
         "no go/pointer: aliasing through access paths, heap cells and one-level parameter summaries only; "
         "every verdict is about the shape of the current source, nothing is executed.")

# id -> (technique, level text, design ref)
CLAIMED = {
 "C13": ("static effect analysis over SSA + CHA call graph (no shared write / no nondeterminism reachable from the parser API)",
         "Sound sufficient condition, decided from source: no function reachable from the exported parser API or from the runtime "
         "provider's component constructors writes package-level state (store, map update, delete, copy, send, or hand-off to a writing callee) "
         "or uses map order/time/rand. Every such write is a VIOLATION naming function and call chain. Decides the structural clause "
         "(re-entrancy, determinism of inputs), not equality of trees under all schedules.", "3/C13"),
 "C09": ("lock-flow dataflow over SSA: condition-variable protocol (wait decides under the cond's lock, signal under the lock, predicate update precedes signal), guarded-by, run-once/pop-returned structure, lock-order graph",
         "Necessary structural conditions decided on every path of the pool's source: (W)/(S)/(S') of the textbook condition-variable argument for every Wait/Signal/Broadcast "
         "(the argument that no wake-up is lost under ANY interleaving), queue mutators and worker table only under their locks, exactly one Run per dequeued task, a dequeued task is always handed to the worker, "
         "deferred deregistration, acyclic lock order. Does not decide liveness beyond lost wake-ups or the timing of the polling loops.", "3/C09"),
 "C15": ("effect analysis over the call graph of the debugger hooks (observer purity), lock-flow condition-variable protocol for suspend/continue, guarded-by analysis of the debugger tables",
         "Necessary structural conditions decided from source: nothing reachable from the hooks the evaluator calls mutates a scope, evaluates code or writes AST/runtime fields; visit hooks return nil; hook calls are nil-tested; "
         "the suspend/continue hand-shake satisfies (W)/(S)/(S') so no continue command can be lost under any timing; debugger tables only under the debugger lock (exclusive for writes). "
         "Does not decide equality of outcomes over programs x command histories.", "3/C15"),
 "C12": ("lock-flow pairing analysis on every CFG path (deferred closures summarised), guarded-by for the mutex/owner tables, ordering/dominance rules, exhaustive enumeration of the bypass condition's abstract cases",
         "Structural conditions that, together with sync.Mutex's contract, give exclusion/re-entrancy/release: every Lock of the module released on every exit; mutex and owner tables only under the table lock with one key; "
         "owner recorded after Lock and cleared before Unlock; the Lock bypassed exactly for (present, owner = this thread) — all 4 abstract cases enumerated; free-owner sentinel outside the thread-id range. "
         "Does not execute schedules; thread ids chosen by an embedding host are outside the check.", "3/C12"),
 "C02": ("dominance / must-pass-through ordering rules on SSA CFGs, per-return classification, guarded-by and lock-order analysis (lockflow) over the engine",
         "Decides the orderings and lock discipline on which the engine's completion-counting argument rests (child counted before NewChildMonitor returns; activate before queueing; observer before AddEvent; Wait on every path that returns a monitor; "
         "Finish exactly on the error-free path after ProcessEvent; errors attached before Finish; notification posted under the zero test taken after the decrement, inside the same critical section, and posted outside the lock; acyclic lock order). "
         "These hold for every interleaving because they are properties of every path; the check does not enumerate schedules and does not decide exactly-once notification for monitors reused by user code.", "3/C02"),
 "C10": ("pairing / provenance / loop-shape rules on SSA (same-value sort-to-loop, control dependence of decrements and of the fail-first exit, provenance of the queued priority)",
         "Structural necessary conditions decided on the engine's source: activation accounting balanced (activated=true only with the per-priority count, decrement only under IsActivated), the executed slice is the sorted SSA value and Less is 'Priority <' in index order, "
         "tasks are queued with their own monitor's priority and the dequeue returns the heap's Pop, the rule loop leaves under failOnFirstError ∧ errors≠∅ after the action ran and its error was recorded. "
         "The heap order of krotik/common and schedules are not explored.", "3/C10"),
 "C01": ("read-set vs key-field analysis of the trigger memo (effects over CHA), reset/mutation pairing, dominating-bound facts for shift counts, sibling cross-check of pre-check vs match (guard relation sets, descent field sets)",
         "Structural necessary conditions of 'never skipped, whatever events came before' and 'any number of state rules': the memoised pre-check reads only fields the memo key is derived from; every index mutation resets the memo; "
         "every rule-count dependent shift is bounded below the mask width by a dominating condition; for each of the three index implementations the pre-check's negative guard implies the match's and the match descends only where the pre-check does. "
         "Which rules match which event (runtime values), suppression/scope values and duplicate firing through overlapping kind patterns are not decided.", "3/C01"),
 "C11": ("effect analysis of the closures flowing into engine.Rule.Action (captured-variable writes), provenance of per-invocation scope/instance state, effect analysis of all Eval-reachable interpreter functions (no write to the shared tree), guarded-by analysis of scope storage",
         "Structural necessary conditions of isolation decided from source: the action closure (called concurrently by all workers) writes no captured variable and hands none to a writing callee; the sink/function body gets a scope and an instance state allocated in the call; "
         "no Eval-path method writes memory reached from its runtime component or a shared AST node/token (lock-guarded provider tables excepted, C12); scope storage/children/parent only under the scope tree's lock. "
         "Decides what an invocation can write that another can see, not attribution values or library-internal races.", "3/C11"),
 "C17": ("path-sensitive abstract interpretation (errpath) of the locator: check-to-use on the same SSA value under (ok=true, err=nil); who-may-open; enumeration of the containment predicate's return paths",
         "Decides, on every path of the locator's source, that each file-system call takes the very value handed to the containment predicate and is reached only where the predicate returned (true, nil); that the import runtime reaches the file system only through Resolve; "
         "and that the predicate can return true only with err=nil, no '..'+separator prefix and rel != '..' for Rel(root, sub). That filepath.Clean/Join/Rel normalise every string as intended is the standard library's contract and is not enumerated.", "3/C17"),
 "C18": ("dataflow classification of line / last-newline variables in the lexer with a pairing rule, structural sibling agreement of the token emitters, must-pass-through ordering of emit vs write-back",
         "Structural necessary conditions of true positions, decided on every block/path of the lexer: line and column base advance together; all emitters stamp Pos/Lline/Lpos with the same expressions; multi-line tokens are emitted before the advanced line is written back. "
         "One site violates the pairing rule today (the `#` comment branch; known finding, pinned by two tests). Byte-exact positions for all inputs are value dependent and not decided.", "3/C18"),
 "C19": ("structural rules over SSA and the type-checked syntax: recover-covers-call, exhaustiveness/agreement of the reflect.Kind switches against the set of numeric kinds, typing of the generated registries, wrapping condition via dominating facts",
         "Structural necessary conditions of a total bridge decided from source: every reflect.Value.Call sits under a deferred recover registered before any call and assigning the named error result; argument conversion covers the 12 non-float64 numeric kinds with the matching Go type, "
         "result conversion covers all 13 with the accessor of the matching class; all generated registry entries implement ECALFunction; executeFunction wraps every non-runtime error. Converted values and the wrapped functions' behaviour are not decided.", "3/C19"),
 "C14": ("intra-procedural taint analysis of the string runtime (evaluated data must not reach the scanned or parsed text), dominance of the interpolation by the AllowEscapes test, slice/index obligations discharged by dominating facts",
         "Decides non-interference on the string runtime's source: nothing computed from an evaluation result or error flows into the text searched for markers or handed to the parser (so data cannot become code and the literal is consumed monotonically); "
         "interpolation is control dependent on AllowEscapes; every index/slice expression of the marker arithmetic is proven in bounds by dominating conditions. Escape handling and the marker texts are value dependent and not decided.", "3/C14"),
 "C07": ("path-sensitive abstract interpretation (errpath) of every parser function returning (*ASTNode, error) under an assume-guarantee contract; typestate/who-may-receive analysis of the token channel; must-pass-through rules on the lexer",
         "Decides on every path of the parser's source: err == nil ⇒ non-nil node and only non-nil children appended (21+ functions, callee contracts as correlations); exactly one of (tree, error) at the API; the token channel is always drained (deferred drain registered before any return, receives only in the buffer and the owner); "
         "the lexer always closes the channel and stops only after an error token or at end of input. Termination for every byte string and per-kind child kinds beyond the shape table are not decided.", "3/C07"),
 "C04": ("path-sensitive abstract interpretation (errpath) of every evaluation call in the interpreter (no error lost), structural rules on the try runtime (defer placement, dominating nil fact, classification gate decided path-sensitively, control dependence of name binding)",
         "Decides the error-path clauses on every path of the interpreter's source: for each of ~150 Eval/Validate/Run calls a non-nil error is returned or inspected; finally is one deferred evaluation registered before the body; otherwise only where the body's error is nil; "
         "control signals bypass the except dispatch on every path; an except child's token value is bound as a variable only under a test of its kind. Branch selection, the loop protocol and range arithmetic are runtime values and not decided.", "3/C04"),
 "C03": ("extraction of the repository's grammar and provider tables from SSA, relation checks against the precedence classes of the language reference, shape rules on the Pratt functions, closure matching on type-checked syntax, failure-edge analysis of operand assertions, errpath for error propagation",
         "Precedence and associativity are entirely a property of one table and three expressions (the Pratt loop is generic): decided exhaustively over the table (68 entries, 6 classes) and the shapes of run/ldInfix/ndPrefix. The operator table is matched operator by operator (25 closures) against the reference; "
         "operand assertions are comma-ok with the matching kind error naming the same operand; evaluation errors propagate on every path. Float results, number lexing and layout are values and not decided.", "3/C03"),
 "C08": ("table agreement by partial evaluation: the printer's bracket guard is interpreted (pure SSA evaluator) over every (parent operator, child operator, position) of the extracted grammar and compared with the closed-form needs-brackets relation of the Pratt parser; exhaustiveness of templates vs the shape table; errpath verify-before-write rule",
         "Decides exhaustively over the grammar table (≈700 operator combinations in 6 classes) that parentheses are emitted wherever re-parsing needs them; that every producible node kind/arity has a template or special case; that string rendering consults the raw/interpolating flag; that the format tool writes only text it re-parsed and compared. "
         "Two classes violate the rule today and are pinned by the suite (right operand of equal binding; raw strings re-quoted): known findings. Idempotence, comments and layout are not decided.", "3/C08"),
 "C05": ("provenance and ordering rules on SSA (fresh call frame, bind-before-parent), who-calls-which scope mutator per runtime type via the extracted providerMap, reader/writer agreement of map key representations in package scope",
         "Decides the clauses of C05 that are visible in the shape of the code: call frames are allocated per call and parameters are bound before the frame is parented to the declaration scope; let uses only SetLocalValue and assignment only SetValue; "
         "the key representations tried when reading an ECAL map equal those used when writing (violated today: known finding, `m := {1:2}; m[1] := 3; m[1]` → 2). Name resolution, closures, objects and the list/map builtins are runtime behaviour and not decided.", "3/C05"),
 "C06": ("obligation analysis: enumeration of every panic-capable SSA instruction in the functions reachable (CHA) from the parsing/validation/evaluation/scope/builtin/engine entry points; automatic discharge by dominating and path-sensitive facts, range loops, callee/slot typing and the AST-shape tables; reviewed table; known findings",
         "Every unchecked type assertion, index/slice with unproven bounds, integer division, interface comparison, interface-keyed map operation, possibly negative make, panicking API call, nil error type and dereference of a constructed node's token in ~590 reachable functions (≈520 obligations) is discharged by a sound rule, by one of 106 reviewed entries (one named construct, one line of reason) or reported. "
         "A new unguarded construct anywhere on these paths is a VIOLATION naming the instruction and a call chain from an entry point. General nil-pointer freedom, user-written non-termination and library internals are not claimed.", "3/C06"),
 "C16": ("obligation analysis over the debugger command implementations and the debugger methods they reach, lazy-field nil-test rule, lockflow pairing (incl. unlock/relock windows) of every debugger method",
         "Structural necessary conditions of a total command interface decided from source: every panic-capable instruction reachable from a debug command is discharged by a dominating argument/state check or a reviewed invariant; fields the debugger learns only during evaluation are nil-tested before use; "
         "every debugger method releases the debugger lock on every path and every unlock/relock window is balanced. JSON-encodability of results and blocking on program-held locks are not decided.", "3/C16"),
}

NOT_YET = "check not built yet in this session (see DESIGN.md section 3 for the planned static rule)"
NA = {
 "C20": "whether the marker is found depends on where it falls relative to 4096-byte read boundaries and on block contents: runtime quantities (binary length, content); no structural rule in reach separates the scan from a correct windowed search without reasoning about offsets symbolically (a different technique family)",
}

# rules added after the two seeding rounds (DESIGN.md 7.3); appended to the level text
ADDED = {
 "C01": "Also: the filter pipeline of ProcessEvent (scope test and suppression per candidate), freshness of everything Match returns or appends to, and the bit formula of the state matcher by truth table (bit-parallel operators). Round 3: the scope walk of IsAllowed is complete (loop or recursion left only on an exhausted path or a missing step). Round 4: the global default scope stands in for a nil scope only.",
 "C02": "Also: RemoveObservers inside the engine names a non-nil source on every path; no re-entrance into a held engine lock. Round 3: every item of the addEventAndWait error report owns its containers; Run's nil/error returns decided path by path. Round 4: no stored callback of the host is called under a lock of the module.",
 "C03": "Also: operator runtimes keep no state between evaluations. Round 3: number literals are decimal conversions of the token text; the zero value of a failed comma-ok assertion is never used as data; operator functions matched on SSA through method values and constant arguments.",
 "C04": "Also: a loop execution allocates its own iterator state, no except clause is tried after one matched, and the loop body's error is never returned without the break check. Round 4: a listed error type that matched stays matched.",
 "C05": "Also: parameter bindings are not loop-carried, concat and list/map literals return fresh containers, new() runs the init of the finished object. Round 3: bindings made with SetValue after the call scope has its parent are findings (parenting at creation included); presence of a name is never decided by nil-ness of the stored value.",
 "C06": "Also: embedded error pointers are non-nil at every store; three reviewed entries carry a machine-checked premise. Round 4: reviewed entries that name a condition at the construct have it re-established on every run.",
 "C07": "Also: no error of a parser function is dropped, and the parser position is not used after a failed advance.",
 "C08": "Also: the format guard compares the tree of the bytes read from the file and covers every token field the interpreter reads. Round 3: no computed format string in the printer and the format tool.",
 "C09": "Also: a signal announces an update its waiters read and follows it on every path; polling exits read their quantities in one critical section; no re-entrance into a held pool lock. Round 4: no stop request is pending (workerKill known zero) where a worker is started.",
 "C10": "Also: priority heap and counter map change together; priorities are int end to end. Round 3: the fail-on-first-error setting is written only by its setter and the constructor. Round 4: the setter stores on every path.",
 "C11": "Also: identifier generators are atomic; the sink action binds event on a parent-less scope. Round 4: the sink body is evaluated under the action's own thread-id parameter.",
 "C12": "Also: thread ids come from one atomic step. Round 3: the id counter of a live pool is never set back; the release-function idiom (acquire returns the matching release closure, deferred at the call) is decided path by path.",
 "C13": "Also: atomically updated package state is never accessed plainly and never decides a branch of a parse. Round 3: nothing on the parse path writes into the shared runtime provider; a pooled object is released at most once per path. Round 4: configuring methods of text/template count as writes to the shared templates; an object stored into a shared container under a lock is not written after the lock is given up.",
 "C14": "Also: the scan position shrinks on every back edge, iterations of the scan loop do not communicate, the lexer hands raw strings over as substrings of the input.",
 "C15": "Also: break-on-error is gated by the control-signal classifier, StopThreads wakes every suspended thread, the wait predicate is not reset after publication, no re-entrance into the debugger lock. Round 3: a resumed thread's node is re-examined for breakpoints on every path; Continue wakes every thread it finds suspended; guarded-by covers every table of the debugger. Round 4: no front-end lock is held across code that can suspend.",
 "C16": "Also: no command handler reaches a function acquiring the debugger lock it holds; results are JSON-encodable by type or sanitised origin and contain no live reference to a debugger table. Round 3: debugger tables are written only under the exclusive lock (all map/slice fields); methods on Scope.Parent() results only where tested against nil. Round 4: a table entry is dereferenced only where its lookup found it.",
 "C17": "Round 3: rebuilt around a containment engine with summaries — the test may be written out next to the file call, or sit in a predicate (bool, error), a check returning only an error, or a confiner returning the path; either spelling of the first-element test (HasPrefix + equality, or Split(rel, sep)[0]).",
 "C18": "Also: the newline test covers every rune a scan loop examines, the parse path never computes with PrefixNewlines, the separation test sees the statement parsed last. Round 3: the bulk form (strings.Count / LastIndex over input[start:pos]) is decided; no iteration of a scan loop bypasses the newline test. Round 4: a line counter is advanced only where the rune comparisons on the way establish a newline.",
 "C19": "Also: every use of reflect in the adapter is under the recover; the trailing error is delivered for every arity. Round 3: plugin code runs under the bridge's recover; arity lower bounds from NumIn() consult IsVariadic(); a named recovering function is accepted. Round 4: pooled buffers do not escape into results.",
}

def main():
    props = [json.loads(l)["id"] for l in open(os.path.join(HERE, "properties.jsonl"))]
    checks, na = [], []
    for pid in props:
        if pid in CLAIMED:
            tech, text, ref = CLAIMED[pid]
            checks.append({
                "property_id": pid,
                "quick_cmd": "./run.sh %s quick" % pid,
                "thorough_cmd": "./run.sh %s thorough" % pid,
                "evidence_file": "/verif/evidence/%s.json" % pid,
                "replay_cmd_template": "./run.sh replay {path}",
                "engine": "ecalcheck",
                "level_claimed": {"category": "other", "text": text + (" " + ADDED[pid] if pid in ADDED else ""), "design_ref": "DESIGN.md section " + ref + " and 7.3"},
                "level_note": TRUST,
                "technique": tech,
            })
        else:
            na.append({"property_id": pid, "reason": NA.get(pid, NOT_YET)})
    m = {
        "version": 1,
        "setup_cmd": "./run.sh build",
        "hooks": {
            "guard": "verif",
            "enable": "none needed: the checks read the unmodified source tree (thorough tier also type-checks with -tags verif)",
            "baseline_off_cmd": "cd /repo && GOFLAGS=-mod=mod GOPROXY=off go test -vet=off -count=1 ./...",
            "source_commits": [],
            "add_only": True,
        },
        "engines": [{
            "name": "ecalcheck", "path": "checker/",
            "serves_properties": sorted(CLAIMED),
            "kind_free_text": "repository-specific static analyser (go/packages, go/ssa, CHA/VTA): effect, lock-flow, error-path, obligation, ordering and table rules",
        }],
        "checks": checks,
        "not_applicable": na,
        "notes": "Static analysis only; every check loads /repo's working tree on every run. Known findings: /verif/KNOWN_FINDINGS.txt. fix: commits in /repo are listed there as fixed: lines. Measured on independently written changes (DESIGN 7.3/7.4): 145 of 152 seeded defects are reported; 256 of 260 behaviour-preserving restructurings are silent, 4 raise a documented open false alarm (refactors/README.md, round 6).",
    }
    json.dump(m, open(os.path.join(HERE, "MANIFEST.json"), "w"), indent=1)
    print("claimed:", " ".join(sorted(CLAIMED)), "| not applicable:", " ".join(x["property_id"] for x in na))

main()
