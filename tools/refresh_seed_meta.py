#!/usr/bin/env python3
"""tools/refresh_seed_meta.py <cross_check seeded log>

Refreshes detected_by / status in seeded/*/meta.json from the output of
`tools/cross_check.sh seeded`. detected_at_first_contact and why_missed of a seed
that is still missed are left alone; a rule of the seed's own property is written
bare ("R01d"), a report of another property as "C06:R06-index"."""
import json, os, re, sys

root = os.path.join(os.path.dirname(os.path.abspath(__file__)), '..', 'seeded')
seen = 0
for line in open(sys.argv[1]):
    m = re.match(r'^(C\d\d-\d+) reported_by:(.*)$', line.strip())
    if not m:
        continue
    sid, rest = m.group(1), m.group(2).strip()
    p = os.path.join(root, sid, 'meta.json')
    if not os.path.exists(p):
        continue
    meta = json.load(open(p))
    own = meta['property']
    det = []
    if rest != 'NONE':
        for part in rest.split():
            prop, _, rules = part.partition(':')
            for r in [x for x in rules.split(',') if x] or ['(violation)']:
                det.append(r if prop == own else prop + ':' + r)
    own_first = [d for d in det if ':' not in d] + [d for d in det if ':' in d]
    if meta.get('round') != 4:
        # earlier rounds are curated by hand: only say when the verdict changed
        if bool(own_first) != (meta.get('status') == 'detected'):
            print('CHANGED', sid, meta.get('status'), '->', own_first)
        continue
    meta['detected_by'] = own_first
    meta['status'] = 'detected' if own_first else 'missed'
    if own_first:
        meta.pop('why_missed', None)
    elif 'why_missed' not in meta:
        meta['why_missed'] = 'not yet examined'
    json.dump(meta, open(p, 'w'), indent=1, ensure_ascii=False)
    seen += 1
print('refreshed', seen)
