#!/bin/bash
# tools/cross_check.sh <refactors|seeded> [jobs]   apply every stored patch to its own scratch copy of /repo's HEAD and run
# the quick checks of all 19 claimed properties on it (in parallel); prints one line per patch:
#   <id> reported_by: <props | NONE>
# refactors must all say NONE; seeded must all be reported (except the documented misses).
# PROPS="C09 C18" restricts the checks that are run (after a change to the rules of a few properties).
cd "$(dirname "$0")/.." || exit 2
kind=${1:-refactors}; jobs=${2:-8}
export GOFLAGS=-mod=mod GOPROXY=off GOSUMDB=off GOTOOLCHAIN=local
one() {
  d=$1; id=$(basename $d)
  t=$(mktemp -d /tmp/xchk.XXXXXX)
  git -C /repo archive HEAD | tar -x -C $t
  if ! (cd $t && git apply --whitespace=nowarn $d/patch.diff 2>/dev/null); then echo "$id DOES-NOT-APPLY"; rm -rf $t; return; fi
  hit=""
  for p in ${PROPS:-C01 C02 C03 C04 C05 C06 C07 C08 C09 C10 C11 C12 C13 C14 C15 C16 C17 C18 C19}; do
    out=$(/verif/bin/ecalcheck -prop $p -tier quick -repo $t -verif /verif -no-evidence 2>&1)
    if echo "$out" | grep -q "VIOLATION property="; then
      rules=$(echo "$out" | grep -oE "^$p (R[A-Za-z0-9′-]+|UNDECIDED)" | awk '{print $2}' | sort -u | paste -sd,)
      hit="$hit $p:$rules"
    fi
  done
  rm -rf $t
  echo "$id reported_by:${hit:- NONE}"
}
export -f one; export PROPS
ls -d /verif/$kind/C*-* | xargs -P $jobs -I{} bash -c 'one {}' | sort
