#!/usr/bin/env python3
"""add_variant.py <Cxx> <name> <kind> <expect_rule|-> <desc> <file> <find> <replace> [<file> <find> <replace> ...]
find/replace may be given as @path to read from a file."""
import sys, json, os
prop, name, kind, expect, desc = sys.argv[1:6]
rest = sys.argv[6:]
def val(x):
    return open(x[1:]).read() if x.startswith('@') else x.encode().decode('unicode_escape')
edits=[]
for i in range(0, len(rest), 3):
    edits.append({"file": rest[i], "find": val(rest[i+1]), "replace": val(rest[i+2])})
d = f'/verif/checker/mutants/{prop}'
os.makedirs(d, exist_ok=True)
p = d + '/variants.json'
vs = json.load(open(p)) if os.path.exists(p) else []
vs = [v for v in vs if v['name'] != name]
v = {"name": name, "kind": kind, "desc": desc, "edits": edits}
if expect != '-': v["expect_rule"] = expect
vs.append(v)
json.dump(vs, open(p, 'w'), indent=1)
# sanity: anchors unique in /repo
for e in edits:
    s = open('/repo/' + e['file']).read()
    n = s.count(e['find'])
    if n != 1: print(f"WARNING: anchor occurs {n} times in {e['file']}: {e['find'][:60]!r}")
print("ok", prop, name)
