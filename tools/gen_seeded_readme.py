#!/usr/bin/env python3
"""Regenerates seeded/README.md from the meta.json files."""
import json, glob, os
rows=[]
for mf in sorted(glob.glob('/verif/seeded/*/meta.json')):
    rows.append(json.load(open(mf)))
def rnd(m): return m.get('round') or (2 if 'round 2' in m['origin'] else 1)
out=[]
out.append("# Independently seeded defects\n")
out.append("Each directory holds one change to krotik/ecal written by a fresh sub-agent that was given only the text of one\n"
"property and its own scratch git worktree (nothing from /verif). Kept only after I confirmed, in a scratch worktree of my\n"
"own: the patch applies and compiles, the unedited suite passes with it, the demonstration fails with it and passes\n"
"without it. `patch.diff` is the change, the `*.go.txt` / `demo/` files and `DEMONSTRATION.md` are the sub-agent's\n"
"demonstration (test files carry a `.txt` suffix so that no Go tool picks them up here), `meta.json` records what it breaks,\n"
"what it needs to manifest, what I ran, and which rule reports it. None of these changes was ever committed to /repo.\n"
"`tools/try_seed.sh <patch> [Cxx ..]` applies one to /repo, runs the quick checks and undoes it; every thorough run applies\n"
"all of them to scratch copies (self-validation) and records the outcome in the evidence.\n")
for r in (1,2,3,4):
    rs=[m for m in rows if rnd(m)==r]
    key='detected_before_strengthening' if r==1 else 'detected_at_first_contact'
    first=sum(1 for m in rs if m.get(key))
    now=sum(1 for m in rs if m['status']=='detected')
    out.append(f"\n## Round {r}: {len(rs)} changes — {first} reported at first contact, {now} reported by the committed checker\n")
    if r==1:
        out.append("Round 1 was run against the checker as it stood after the first build (rules R..a–d). The 25 misses drove the rules\n"
                   "added afterwards; those rules were therefore written *knowing* the seeds. Round 2 is the unbiased measurement of the\n"
                   "strengthened checker.\n")
    elif r==4:
        out.append("Round 4 was run after the third refactoring round, with fresh sub-agents told which six earlier changes per\n"
                   "property to avoid.\n")
    elif r==3:
        out.append("Round 3 was run after both refactoring rounds (DESIGN 7.4), again with fresh sub-agents that were told which four\n"
                   "earlier changes per property to avoid. Several first-contact reports are side reports of another property's rule on\n"
                   "the restructured part of a change rather than a diagnosis of the defect; the table lists exactly what reported.\n")
    else:
        out.append("Round 2 was run with fresh sub-agents that were additionally told which round-1 changes to avoid. 'First contact' is\n"
                   "what the checker reported before any rule was written for the seed; UNDECIDED means the checker failed because a shape\n"
                   "it needs was no longer recognisable (counted as a detection, not as a diagnosis).\n")
    out.append("\n| id | change | needs | first contact | now reported by |\n|---|---|---|---|---|\n")
    for m in rs:
        f=', '.join(m.get(key,[])) or '—'
        d=', '.join(m['detected_by']) or ('**missed** — '+m.get('why_missed',''))
        if m.get('note') and m['detected_by']:
            d+=' — '+m['note']
        out.append(f"| {m['id']} | {m['change']} | {m['needs_to_manifest']} | {f} | {d} |\n")
open('/verif/seeded/README.md','w').write(''.join(out))
print("ok", len(rows))
