#!/bin/bash
# ./run.sh Cxx quick|thorough     decide one property on /repo's current working tree
# ./run.sh replay <file>          re-decide the rule instance recorded in a replay file
# ./run.sh build                  (re)build bin/ecalcheck from checker/
cd "$(dirname "$0")" || exit 2
export GOFLAGS=-mod=mod GOPROXY=off GOSUMDB=off GOTOOLCHAIN=local CGO_ENABLED=0
unset GOWORK
build() {
  (cd checker && go build -o ../bin/ecalcheck .) || { echo "cannot build checker"; exit 2; }
}
if [ "$1" = build ]; then build; exit 0; fi
# rebuild when the binary is missing or older than any checker source
if [ ! -x bin/ecalcheck ] || [ -n "$(find checker -newer bin/ecalcheck -name '*.go' -print -quit)" ]; then build; fi
if [ "$1" = replay ]; then exec bin/ecalcheck -replay "$2" -repo "${VERIF_REPO:-/repo}" -verif "$PWD"; fi
tier="${2:-${VERIF_TIER:-quick}}"
exec bin/ecalcheck -prop "$1" -tier "$tier" -repo "${VERIF_REPO:-/repo}" -verif "$PWD"
